"""Sidecar contracts for insights/client/utilities.py (C17): registration markers and the machine identifier, over a ghost
file-system state.  FS_kind[p]: 1 regular file, 2 directory, 3 symbolic link (absent: p not in FS_kind); FS_data[p]: content of a
regular file; FS_target[p]: target of a link (links are one level deep: a target is never itself a link)."""
import collections
from pyvc.dsl import *

M = "insights/client/utilities.py"
FILE, DIR, LINK = 1, 2, 3
RES = "(FS_target[{p}] if ({p} in FS_kind and FS_kind[{p}] == 3) else {p})"       # where open() / exists() end up
PRESENT = "({p} in FS_kind)"
EXISTS = "(%s in FS_kind and FS_kind[%s] != 3)" % (RES.format(p="{p}"), RES.format(p="{p}"))
ISFILE = "(%s in FS_kind and FS_kind[%s] == 1)" % (RES.format(p="{p}"), RES.format(p="{p}"))
SAME_FS = "FS_kind == old(FS_kind) and FS_data == old(FS_data) and FS_target == old(FS_target)"
R = ["uf('const_R0', STR)", "uf('const_R1', STR)"]
U = ["uf('const_U0', STR)", "uf('const_U1', STR)"]
PATHS_OK = ["distinct([%s, %s, %s, %s])" % (R[0], R[1], U[0], U[1]),
            "uf('dirname', STR, %s) == uf('dirname', STR, %s)" % (R[0], U[0]), "uf('dirname', STR, %s) == uf('dirname', STR, %s)" % (R[1], U[1]),
            # the marker paths are not the configuration directories themselves nor link targets of one another
            "forall(p, FS_kind, implies(FS_kind[p] == 3, FS_target[p] != %s and FS_target[p] != %s and FS_target[p] != %s and FS_target[p] != %s))" % (R[0], R[1], U[0], U[1]),
            "forall(p, FS_kind, implies(FS_kind[p] == 3, not (FS_target[p] in FS_kind and FS_kind[FS_target[p]] == 3)))"] + [
            # a configuration directory (or what it resolves to) is not itself one of the marker paths
            "uf('dirname', STR, %s) != %s and %s != %s" % (a, b, RES.format(p="uf('dirname', STR, %s)" % a), b)
            for a in (R[0], R[1], U[0], U[1]) for b in (R[0], R[1], U[0], U[1])]


def declare(reg):
    reg.sort(Str=STR)
    reg.exc_extra.update({"OSError": "Exception"})
    reg.exc_attrs["OSError"] = collections.OrderedDict(errno=INT)
    reg.glob(M, FS_kind=Map(STR, INT), FS_data=Map(STR, STR), FS_target=Map(STR, STR))
    reg.static_consts = {"constants.registered_files": [("R0", STR), ("R1", STR)], "constants.unregistered_files": [("U0", STR), ("U1", STR)]}
    reg.assume("the file system is a ghost state (FS_kind / FS_data / FS_target) read and written only through the assumed POSIX "
               "contracts of os.path.exists / lexists / islink / isfile / dirname, os.remove and open().write/read; links are one level deep")
    for n in ("logger.debug", "logger.error", "logger.info", "logger.warning"):
        reg.external(n, drop=True)
    reg.external("errno.ENOENT", returns=INT, pure=True)
    reg.external("get_time", returns=STR)
    reg.external("os.path.dirname", params=dict(p=STR), returns=STR, pure=True, ensures=["result == uf('dirname', STR, p)"])
    reg.external("os.path.exists", params=dict(p=STR), returns=BOOL, pure=True, ensures=["result == %s" % EXISTS.format(p="p")])
    reg.external("os.path.lexists", params=dict(p=STR), returns=BOOL, pure=True, ensures=["result == %s" % PRESENT.format(p="p")])
    reg.external("os.path.islink", params=dict(p=STR), returns=BOOL, pure=True, ensures=["result == (p in FS_kind and FS_kind[p] == 3)"])
    reg.external("os.path.isfile", params=dict(p=STR), returns=BOOL, pure=True, ensures=["result == %s" % ISFILE.format(p="p")])
    reg.external("os.remove", params=dict(p=STR), modifies=["FS_kind"],
                 raises={"OSError": "p not in FS_kind or FS_kind[p] == 2"}, raise_frame="unchanged",
                 ensures=["FS_kind == remove(old(FS_kind), p)"],
                 ensures_raise={"OSError": ["(p not in FS_kind) == (exc.errno == uf('const_errno.ENOENT', INT))"]},
                 note="os.remove removes the directory entry itself (a link is not followed); a missing entry is ENOENT")
    reg.cls("File", path=STR)
    reg.external("open", params=dict(path=STR, mode=STR), returns=Ref("File"), modifies=["FS_kind", "FS_data", "File.path"],
                 raises={"OSError": "?not (uf('dirname_exists', BOOL, path))"},
                 ensures=["result.path == path",
                          # opening for writing creates / truncates the file the path resolves to (a link is followed)
                          "implies(mode == 'wb', FS_kind == store(old(FS_kind), %s, 1))" % RES.format(p="path").replace("FS_kind", "old(FS_kind)").replace("FS_target", "old(FS_target)"),
                          "implies(mode != 'wb', FS_kind == old(FS_kind) and FS_data == old(FS_data))",
                          "implies(mode == 'wb', forall(q, Str, implies(q != %s, (q in FS_data) == (q in old(FS_data)) and implies(q in FS_data, FS_data[q] == old(FS_data)[q]))))" % RES.format(p="path").replace("FS_kind", "old(FS_kind)").replace("FS_target", "old(FS_target)")],
                 note="open(path, 'wb') follows a symbolic link at path; used as a context manager")
    reg.interface("File", "write", params=dict(self=Ref("File"), data=STR), modifies=["FS_data"], raises={},
                  ensures=["FS_data == store(old(FS_data), %s, data)" % RES.format(p="self.path")])
    reg.interface("File", "read", params=dict(self=Ref("File")), returns=STR, pure=True, raises={},
                  ensures=["result == FS_data[%s]" % RES.format(p="self.path")])

    reg.contract(M, "write_to_disk", params=dict(filename=STR, delete=BOOL, content=Opt(STR)), defaults=dict(delete="False", content="None"),
                 modifies=["FS_kind", "FS_data", "File.path"],
                 raises={"OSError": None},
                 ensures=[
                     # a missing parent directory: silently nothing
                     "implies(not old(%s), %s)" % (EXISTS.format(p="uf('dirname', STR, filename)"), SAME_FS),
                     # delete: the entry itself is gone (a link is not followed), a missing file is not an error, nothing else changes
                     "implies(old(%s) and delete, filename not in FS_kind and forall(q, Str, implies(q != filename, (q in FS_kind) == (q in old(FS_kind)) and implies(q in FS_kind, FS_kind[q] == old(FS_kind)[q]))) "
                     "        and FS_data == old(FS_data))" % EXISTS.format(p="uf('dirname', STR, filename)"),
                     # write: the file the path resolves to holds the content
                     "implies(old(%s) and not delete, old(%s) in FS_kind and FS_kind[old(%s)] == 1 and "
                     "        forall(q, Str, implies(q != old(%s), (q in FS_kind) == (q in old(FS_kind)) and implies(q in FS_kind, FS_kind[q] == old(FS_kind)[q]))))"
                     % (EXISTS.format(p="uf('dirname', STR, filename)"), RES.format(p="filename"), RES.format(p="filename"), RES.format(p="filename")),
                     "implies(old(%s) and not delete and content is not None, FS_data[old(%s)] == uf('str_encode', STR, some(content), 'utf-8'))"
                     % (EXISTS.format(p="uf('dirname', STR, filename)"), RES.format(p="filename")),
                     "implies(old(%s) and not delete, forall(q, Str, implies(q != old(%s), (q in FS_data) == (q in old(FS_data)) and implies(q in FS_data, FS_data[q] == old(FS_data)[q]))))"
                     % (EXISTS.format(p="uf('dirname', STR, filename)"), RES.format(p="filename")),
                     "FS_target == old(FS_target)",
                 ])

    PARENT = lambda p: EXISTS.format(p="uf('dirname', STR, %s)" % p)
    def REGULAR_AT(p):       # a regular file at that very path (not a link, not followed)
        return "(%s in FS_kind and FS_kind[%s] != 3)" % (p, p)
    for name, own, other in (("delete_registered_file", R, None), ("delete_unregistered_file", U, None)):
        reg.contract(M, name, params=dict(), modifies=["FS_kind", "FS_data", "File.path"], requires=PATHS_OK, raises={"OSError": None},
                     ensures=["implies(old(%s), %s not in FS_kind)" % (PARENT(own[0]), own[0]), "implies(old(%s), %s not in FS_kind)" % (PARENT(own[1]), own[1]),
                              "forall(q, Str, implies(q != %s and q != %s, (q in FS_kind) == (q in old(FS_kind)) and implies(q in FS_kind, FS_kind[q] == old(FS_kind)[q])))" % (own[0], own[1]),
                              "FS_target == old(FS_target)", "FS_data == old(FS_data)"])
    COHERENT = ["not (%s in FS_kind and %s in FS_kind)" % (R[i], U[i]) for i in (0, 1)]
    for name, own, other, params in (("write_registered_file", R, U, dict()), ("write_unregistered_file", U, R, dict(date=Opt(STR)))):
        reg.contract(M, name, params=params, defaults=dict(date="None"), modifies=["FS_kind", "FS_data", "File.path"],
                     requires=PATHS_OK, raises={"OSError": None},
                     ensures=[
                         # in every configuration directory that exists: the opposite marker is gone, this one is present at that very
                         # path and is not a symbolic link (a planted link has been replaced, not followed)
                         "implies(old(%s), %s not in FS_kind and %s)" % (PARENT(own[0]), other[0], REGULAR_AT(own[0])),
                         "implies(old(%s), %s not in FS_kind and %s)" % (PARENT(own[1]), other[1], REGULAR_AT(own[1])),
                         # nothing outside the four marker paths is touched (in particular no link target)
                         "forall(q, Str, implies(q != %s and q != %s and q != %s and q != %s, (q in FS_kind) == (q in old(FS_kind)) and "
                         "       implies(q in FS_kind, FS_kind[q] == old(FS_kind)[q]) and (q in FS_data) == (q in old(FS_data)) and implies(q in FS_data, FS_data[q] == old(FS_data)[q])))"
                         % (R[0], R[1], U[0], U[1]),
                         "FS_target == old(FS_target)"]
                     # the two markers never coexist afterwards in a directory that exists
                     + ["implies(old(%s), %s)" % (PARENT(own[i]), COHERENT[i]) for i in (0, 1)])

    # ------------------------------------------------------------------ machine identifier
    reg.exc_extra.update({"SystemExit": "Exception"})
    reg.assume("sys.exit is modelled as raising a (pseudo) Exception subclass SystemExit; text written through open(..,'wb') with "
               ".encode('utf-8') is read back unchanged by open(..,'r') (encode/decode identified)")
    reg.axiom("forall(x, Str, uf('str_encode', STR, x, 'utf-8') == x)")
    reg.external("sys.exit", params=dict(code=None), raises={"SystemExit": "True"}, raise_frame="unchanged")
    reg.external("constants.sig_kill_bad", returns=INT, pure=True)
    reg.external("_get_rhsm_identity", returns=Opt(STR), note="the subscription-manager identity: an arbitrary string or None")
    reg.external("uuid.uuid4", returns=PY, ensures=["uf('uuid_valid', BOOL, uf('str_strip', STR, uf('to_str', STR, result)))",
                                                     "truthy(uf('to_str', STR, result))"],
                 note="uuid4() is a well-formed UUID")
    reg.external("uuid.UUID", params=dict(s=STR, version=INT), returns=PY, pure=False,
                 raises={"ValueError": "not uf('uuid_valid', BOOL, s)"}, raise_frame="unchanged",
                 ensures=["result is uf('uuid_obj', PY, s)"])
    CANON = "uf('to_str', STR, uf('uuid_obj', PY, uf('str_strip', STR, {s})))"
    DEST = "destination_file"
    OLDID = "old(FS_data)[old(%s)]" % RES.format(p=DEST)
    REUSE = "(old(%s) and not new and truthy(%s))" % (ISFILE.format(p=DEST), OLDID)
    reg.contract(M, "generate_machine_id", params=dict(new=BOOL, destination_file=STR), returns=STR,
                 modifies=["FS_kind", "FS_data", "File.path"],
                 requires=["forall(p, FS_kind, implies(FS_kind[p] == 3, not (FS_target[p] in FS_kind and FS_kind[FS_target[p]] == 3)))",
                           "forall(p, FS_kind, implies(FS_kind[p] == 1, p in FS_data))",
                           # the identifier file's directory does not resolve to the identifier file
                           "%s != %s and uf('dirname', STR, %s) != %s" % (RES.format(p="uf('dirname', STR, %s)" % DEST), RES.format(p=DEST), DEST, RES.format(p=DEST))],
                 locals=dict(machine_id=Opt(STR)),
                 raises={"OSError": None, "SystemExit": None},
                 kf={"E3": "not %s" % EXISTS.format(p="uf('dirname', STR, destination_file)")},
                 ensures=[
                     # an existing, non-empty identifier is reused: the file is never rewritten by a read, the result is its canonical form
                     "implies(%s, %s)" % (REUSE, SAME_FS),
                     "implies(%s, result == %s)" % (REUSE, CANON.format(s=OLDID)),
                     "FS_target == old(FS_target)",
                     # stability: what the file holds afterwards canonicalises to what was returned (so the next read returns the same)
                     "%s and %s == result" % (ISFILE.format(p=DEST), CANON.format(s="FS_data[%s]" % RES.format(p=DEST))),
                 ])
    reg.contract(M, "machine_id_exists", params=dict(destination_file=STR), returns=BOOL, pure=True, raises={},
                 ensures=["result == %s" % ISFILE.format(p="destination_file")])
