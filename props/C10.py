"""C10 - cleaning is a deterministic, order-preserving function of content and configuration."""
from contracts.cleaner import M as CM
from contracts.provider_clean import M as SF

GROUPS = [
    dict(name="cleaner", sidecars=["cleaner"], units=[(CM, "Cleaner.clean_content.<locals>._clean_line"), (CM, "Cleaner.clean_content")]),
    dict(name="provider", sidecars=["provider_clean"], units=[(SF, "ContentProvider._clean_content"), (SF, "ContentProvider.content"),
                                                               (SF, "ContentProvider.write")],
         refinements=[((SF, "ContentProvider._clean_content"), ("Provider", "_clean_content")),
                      ((SF, "ContentProvider.content"), ("Provider", "content"))]),
]
NOT_CARRIED = ["determinism of the obfuscators' own parse_line bodies (e.g. iteration over a set of matches inside Hostname.parse_line) is covered by the "
               "bounded hash-seed stand-in only (labelled bounded)",
               "the stages themselves (Pattern, AllowFilter, Keyword, Password, IPv4, IPv6, Hostname, Mac .parse_line) are one assumed interface "
               "contract: deterministic in (stage, its state, line, keyword arguments); given that, the output is a function of the stage "
               "list and the lines, and the `deterministic` obligation states that the stage list does not depend on set iteration order",
               "clean_content with a single string instead of a list of lines",
               "'blank' is read as the empty string (a spec of white-space-only lines is kept), see DESIGN.md"]


def bounded(check):
    """bounded stand-in for determinism of the obfuscators' own parse_line bodies (not under contract): real Cleaner, fresh interpreters,
    several PYTHONHASHSEED values"""
    import json, os, subprocess
    n = 8 if check.tier == "quick" else 32
    here = os.path.dirname(os.path.dirname(os.path.abspath(__file__)))
    p = subprocess.run(["/venv/bin/python", os.path.join(here, "bounded", "cleaner_determinism.py"), check.repo.root, str(n)],
                       stdout=subprocess.PIPE, stderr=subprocess.PIPE, universal_newlines=True, timeout=3000)
    line = (p.stdout.strip().splitlines() or ["{}"])[-1]
    try:
        info = json.loads(line)
    except ValueError:
        info = {"error": (p.stderr or p.stdout)[-400:]}
    out = dict(name="the real Cleaner gives identical output under different PYTHONHASHSEED values", level="bounded",
               bound="4 contents (many peer host names on one line; keyword inside a host name; overlapping keywords; addresses, MACs, names, password mixed) x %d hash seeds" % n,
               result=info, violation=(p.returncode == 1), error=(p.returncode not in (0, 1)))
    if p.returncode == 1:
        os.makedirs(os.path.join(here, "replays"), exist_ok=True)
        path = os.path.join(here, "replays", "C10-bounded.json")
        json.dump(dict(obligation="bounded:cleaner-determinism", witness=info,
                       replay_cmd="/venv/bin/python %s %s %d" % (os.path.join(here, "bounded", "cleaner_determinism.py"), check.repo.root, n)),
                  open(path, "w"), indent=1)
        out["replay"] = path
    return [out]
