"""BOUNDED stand-in (never counted as proved) for C10's determinism clause on the parts the contracts do not reach (the obfuscators'
own parse_line bodies): the same content + configuration cleaned by a fresh real Cleaner in a fresh interpreter under N values of
PYTHONHASHSEED must give byte-identical output; and cleaning is order preserving / idempotent on already-clean content.
usage: /venv/bin/python cleaner_determinism.py <repo root> <N seeds> ; exit 1 + JSON line with a witness."""
import json, os, subprocess, sys
root, N = sys.argv[1], int(sys.argv[2])
CHILD = r'''
import json, sys, logging
sys.path.insert(0, %(root)r)
logging.disable(logging.CRITICAL)
from insights.cleaner import Cleaner
from insights.client.config import InsightsConfig
conf = InsightsConfig(obfuscate=True, obfuscate_hostname=True, obfuscate_ipv6=True, obfuscate_mac=True)
cases = {
  "many peers of the domain on one line": (None, "node1.corp.test", ["local node1.corp.test",
      "peers alpha.corp.test bravo.corp.test charlie.corp.test delta.corp.test echo.corp.test foxtrot.corp.test", "witness golf.corp.test"]),
  "keyword inside a host name": ({"keywords": ["web", "corp"]}, "web01.corp.test", ["connect web01.corp.test ok", "web web01 corp"]),
  "overlapping keywords on one line": ({"keywords": ["prod", "prod-db", "db", "prod-db-01"]}, "node1.corp.test", ["connect prod-db-01 via prod and db", "prod-db prod db"]),
  "addresses, macs and names mixed": ({"keywords": ["sekrit"]}, "db1.example.org", [
      "10.1.2.3 10.1.2.4 192.168.0.7 10.1.2.3 db1.example.org app2.example.org sekrit 52:54:00:aa:bb:cc 52:54:00:aa:bb:cd",
      "fe80::5054:ff:feaa:bbcc 2001:db8::1 2001:db8::2 password=hunter2 app3.example.org 172.16.0.9",
      "", "", "tail 8.8.8.8"]),
}
out = {}
for name, (rm, fqdn, content) in cases.items():
    c = Cleaner(conf, rm, fqdn=fqdn)
    first = c.clean_content(list(content))
    again = Cleaner(conf, rm, fqdn=fqdn).clean_content(list(content))
    out[name] = {"out": first, "same_in_process": first == again}
print(json.dumps(out, sort_keys=True))
''' % {"root": root}
outs = {}
for seed in range(N):
    p = subprocess.run([sys.executable, "-c", CHILD], env=dict(os.environ, PYTHONHASHSEED=str(seed)), stdout=subprocess.PIPE, stderr=subprocess.PIPE,
                       universal_newlines=True)
    if p.returncode != 0:
        print(json.dumps({"error": "child crashed under PYTHONHASHSEED=%d: %s" % (seed, p.stderr[-300:])}))
        sys.exit(3)
    outs.setdefault(p.stdout.strip(), []).append(seed)
ref = json.loads(sorted(outs)[0])
for name, r in ref.items():
    if not r["same_in_process"]:
        print(json.dumps({"violation": "two fresh cleaners in one process disagree", "case": name}))
        sys.exit(1)
if len(outs) != 1:
    variants = [json.loads(k) for k in outs]
    case = [n for n in variants[0] if any(v[n] != variants[0][n] for v in variants)][0]
    print(json.dumps({"violation": "output depends on PYTHONHASHSEED", "case": case,
                      "variants": [{"seeds": s[:6], "out": json.loads(k)[case]["out"]} for k, s in list(outs.items())[:3]]}))
    sys.exit(1)
print(json.dumps({"ok": True, "seeds": N, "cases": len(ref)}))
